//! C19 — plain-data description of a transaction check case (`Case`), the builder that
//! turns it into real `fuel_tx` values, and the call into the subject.
//!
//! Nothing in here decides validity; see `c19_ref.rs` for the reference validator.

use fuel_tx::{
    field::StorageSlots,
    input::contract::Contract as InContract,
    output::contract::Contract as OutContract,
    policies::{
        Policies,
        PolicyType,
    },
    Address,
    AssetId,
    Blob,
    BlobBody,
    BlobId,
    Bytes32,
    ConsensusParameters,
    ContractId,
    ContractParameters,
    Create,
    FeeParameters,
    GasCosts,
    Input,
    Mint,
    Output,
    PredicateParameters,
    Salt,
    Script,
    ScriptParameters,
    StorageSlot,
    Transaction,
    TxParameters,
    TxPointer,
    Upgrade,
    UpgradePurpose,
    Upload,
    UploadBody,
    UtxoId,
    Witness,
};
use fuel_types::{
    canonical::Serialize as _,
    ChainId,
    Nonce,
};
use fuel_vm::checked_transaction::IntoChecked;
use serde::{
    Deserialize,
    Serialize,
};
use std::{
    borrow::Cow,
    cell::RefCell,
    collections::BTreeMap,
    sync::OnceLock,
};
use vcore::{
    guard,
    oracle,
};

pub type B32 = [u8; 32];

// ------------------------------------------------------------------ plain data

#[derive(Clone, PartialEq, Eq, Hash, Debug, Serialize, Deserialize)]
pub enum In {
    /// `signed` => CoinSigned (pred/pdata/pgas ignored), else CoinPredicate.
    Coin {
        signed: bool,
        utxo: (u8, u16),
        owner: u8,
        amount: u64,
        asset: u8,
        wit: u16,
        pred: u32,
        pdata: u32,
        pgas: u64,
    },
    /// `data` selects the MessageData* variants (dlen ignored otherwise).
    Msg {
        data: bool,
        signed: bool,
        nonce: u8,
        sender: u8,
        recipient: u8,
        amount: u64,
        wit: u16,
        dlen: u32,
        pred: u32,
        pdata: u32,
        pgas: u64,
    },
    Contract { utxo: (u8, u16), contract: u8 },
}

#[derive(Clone, PartialEq, Eq, Hash, Debug, Serialize, Deserialize)]
pub enum Out {
    Coin { to: u8, amount: u64, asset: u8 },
    Change { to: u8, amount: u64, asset: u8 },
    Variable { to: u8, amount: u64, asset: u8 },
    Contract { input_index: u16 },
    Created { contract_id: B32, state_root: B32 },
}

#[derive(Clone, PartialEq, Eq, Hash, Debug, Serialize, Deserialize)]
pub enum Wit {
    Fill { len: u32, byte: u8 },
    /// postcard-serialized `ConsensusParameters::standard()`
    Params,
    /// five 0xff bytes (not a postcard encoding of consensus parameters)
    Garbage,
}

#[derive(Clone, Default, PartialEq, Eq, Hash, Debug, Serialize, Deserialize)]
pub struct Pol {
    pub tip: Option<u64>,
    pub witness_limit: Option<u64>,
    pub maturity: Option<u64>,
    pub max_fee: Option<u64>,
    pub expiration: Option<u64>,
    pub owner: Option<u64>,
}

#[derive(Clone, PartialEq, Eq, Hash, Debug, Serialize, Deserialize)]
pub enum Body {
    Script { gas_limit: u64, script: u32, data: u32 },
    Create { bytecode_wit: u16, salt: u8, slots: Vec<(u8, u8)> },
    UpgradeCp { wit: u16, checksum: B32 },
    UpgradeSt { root: u8 },
    Upload { root: B32, wit: u16, index: u16, count: u16, proof: Vec<B32> },
    Blob { id: B32, wit: u16 },
    Mint { height: u32, tx_idx: u16, contract: u8, out_index: u16, asset: u8, amount: u64, gas_price: u64 },
}

#[derive(Clone, PartialEq, Eq, Hash, Debug, Serialize, Deserialize)]
pub struct Tx {
    pub body: Body,
    pub pol: Pol,
    pub ins: Vec<In>,
    pub outs: Vec<Out>,
    pub wits: Vec<Wit>,
}

/// The consensus-parameter limits the validity rules refer to. Gas costs are
/// `GasCosts::free()` and `gas_per_byte = 0` throughout (see assumptions).
#[derive(Clone, PartialEq, Eq, Hash, Debug, Serialize, Deserialize)]
pub struct Limits {
    pub max_inputs: u16,
    pub max_outputs: u16,
    pub max_witnesses: u32,
    pub max_gas_per_tx: u64,
    pub max_size: u64,
    pub max_script: u64,
    pub max_script_data: u64,
    pub max_pred: u64,
    pub max_pdata: u64,
    pub max_msg_data: u64,
    pub contract_max_size: u64,
    pub max_slots: u64,
    pub max_subsections: u16,
}

impl Limits {
    pub fn shrunk() -> Self {
        Limits {
            max_inputs: 3,
            max_outputs: 3,
            max_witnesses: 3,
            max_gas_per_tx: 1000,
            max_size: 1 << 20,
            max_script: 16,
            max_script_data: 16,
            max_pred: 16,
            max_pdata: 16,
            max_msg_data: 16,
            contract_max_size: 16,
            max_slots: 2,
            max_subsections: 4,
        }
    }
}

#[derive(Clone, PartialEq, Eq, Hash, Debug, Serialize, Deserialize)]
pub struct Case {
    pub tx: Tx,
    pub lim: Limits,
    pub height: u32,
}

pub const BASE: u8 = 0; // asset tag of the base asset
pub const PRIV: u8 = 0; // owner tag of the privileged address

impl Tx {
    pub fn kind(&self) -> &'static str {
        match self.body {
            Body::Script { .. } => "Script",
            Body::Create { .. } => "Create",
            Body::UpgradeCp { .. } => "UpgradeCp",
            Body::UpgradeSt { .. } => "UpgradeSt",
            Body::Upload { .. } => "Upload",
            Body::Blob { .. } => "Blob",
            Body::Mint { .. } => "Mint",
        }
    }
}

// ------------------------------------------------------------------ tag -> bytes

pub fn addr_b(t: u8) -> B32 {
    [0x40u8.wrapping_add(t); 32]
}
/// base asset is deliberately not the all-zero id
pub fn asset_b(t: u8) -> B32 {
    [0x0bu8.wrapping_add(t.wrapping_mul(0x10)); 32]
}
pub fn contract_b(t: u8) -> B32 {
    [0xc0u8.wrapping_add(t); 32]
}
pub fn nonce_b(t: u8) -> B32 {
    [0x70u8.wrapping_add(t); 32]
}
pub fn txid_b(t: u8) -> B32 {
    [0x30u8.wrapping_add(t); 32]
}
pub fn salt_b(t: u8) -> B32 {
    [0x5au8.wrapping_add(t); 32]
}
pub fn slot_key_b(t: u8) -> B32 {
    [t; 32]
}
pub fn slot_val_b(t: u8) -> B32 {
    [0xf0 ^ t; 32]
}

static PARAMS_BYTES: OnceLock<Vec<u8>> = OnceLock::new();
static PARAMS_HASH: OnceLock<B32> = OnceLock::new();

pub fn params_bytes() -> &'static [u8] {
    PARAMS_BYTES.get_or_init(|| {
        postcard::to_allocvec(&ConsensusParameters::standard()).expect("serialize consensus parameters")
    })
}

pub const GARBAGE: [u8; 5] = [0xff; 5];

pub fn wit_len(w: &Wit) -> u64 {
    match w {
        Wit::Fill { len, .. } => *len as u64,
        Wit::Params => params_bytes().len() as u64,
        Wit::Garbage => GARBAGE.len() as u64,
    }
}

pub fn wit_bytes(w: &Wit) -> Cow<'static, [u8]> {
    match w {
        Wit::Fill { len, byte } => Cow::Owned(vec![*byte; *len as usize]),
        Wit::Params => Cow::Borrowed(params_bytes()),
        Wit::Garbage => Cow::Borrowed(&GARBAGE[..]),
    }
}

pub fn wit_sha256(w: &Wit) -> B32 {
    match w {
        Wit::Params => *PARAMS_HASH.get_or_init(|| oracle::sha256(&[params_bytes()])),
        other => oracle::sha256(&[&wit_bytes(other)]),
    }
}

// ------------------------------------------------------------------ builder

fn build_input(i: &In) -> Input {
    match i {
        In::Coin { signed, utxo, owner, amount, asset, wit, pred, pdata, pgas } => {
            let u = UtxoId::new(Bytes32::new(txid_b(utxo.0)), utxo.1);
            let o = Address::new(addr_b(*owner));
            let a = AssetId::new(asset_b(*asset));
            if *signed {
                Input::coin_signed(u, o, *amount, a, TxPointer::default(), *wit)
            } else {
                Input::coin_predicate(
                    u,
                    o,
                    *amount,
                    a,
                    TxPointer::default(),
                    *pgas,
                    vec![0x24; *pred as usize],
                    vec![0xd7; *pdata as usize],
                )
            }
        }
        In::Msg { data, signed, nonce, sender, recipient, amount, wit, dlen, pred, pdata, pgas } => {
            let s = Address::new(addr_b(*sender));
            let r = Address::new(addr_b(*recipient));
            let n = Nonce::new(nonce_b(*nonce));
            let d = || vec![0xda; *dlen as usize];
            let p = || vec![0x24; *pred as usize];
            let pd = || vec![0xd7; *pdata as usize];
            match (*data, *signed) {
                (false, true) => Input::message_coin_signed(s, r, *amount, n, *wit),
                (false, false) => Input::message_coin_predicate(s, r, *amount, n, *pgas, p(), pd()),
                (true, true) => Input::message_data_signed(s, r, *amount, n, *wit, d()),
                (true, false) => Input::message_data_predicate(s, r, *amount, n, *pgas, d(), p(), pd()),
            }
        }
        In::Contract { utxo, contract } => Input::contract(
            UtxoId::new(Bytes32::new(txid_b(utxo.0)), utxo.1),
            Bytes32::new([0x0a; 32]),
            Bytes32::new([0x0b; 32]),
            TxPointer::default(),
            ContractId::new(contract_b(*contract)),
        ),
    }
}

fn build_output(o: &Out) -> Output {
    match o {
        Out::Coin { to, amount, asset } => {
            Output::coin(Address::new(addr_b(*to)), *amount, AssetId::new(asset_b(*asset)))
        }
        Out::Change { to, amount, asset } => {
            Output::change(Address::new(addr_b(*to)), *amount, AssetId::new(asset_b(*asset)))
        }
        Out::Variable { to, amount, asset } => {
            Output::variable(Address::new(addr_b(*to)), *amount, AssetId::new(asset_b(*asset)))
        }
        Out::Contract { input_index } => {
            Output::contract(*input_index, Bytes32::new([0x0c; 32]), Bytes32::new([0x0d; 32]))
        }
        Out::Created { contract_id, state_root } => {
            Output::contract_created(ContractId::new(*contract_id), Bytes32::new(*state_root))
        }
    }
}

fn build_policies(p: &Pol) -> Policies {
    let mut r = Policies::new();
    r.set(PolicyType::Tip, p.tip);
    r.set(PolicyType::WitnessLimit, p.witness_limit);
    r.set(PolicyType::Maturity, p.maturity);
    r.set(PolicyType::MaxFee, p.max_fee);
    r.set(PolicyType::Expiration, p.expiration);
    r.set(PolicyType::Owner, p.owner);
    r
}

pub enum Built {
    Script(Script),
    Create(Create),
    Upgrade(Upgrade),
    Upload(Upload),
    Blob(Blob),
    Mint(Mint),
}

pub fn build(t: &Tx) -> Built {
    let pol = build_policies(&t.pol);
    let ins: Vec<Input> = t.ins.iter().map(build_input).collect();
    let outs: Vec<Output> = t.outs.iter().map(build_output).collect();
    let wits: Vec<Witness> = t.wits.iter().map(|w| Witness::from(wit_bytes(w).into_owned())).collect();
    match &t.body {
        Body::Script { gas_limit, script, data } => Built::Script(Transaction::script(
            *gas_limit,
            vec![0x5c; *script as usize],
            vec![0x5d; *data as usize],
            pol,
            ins,
            outs,
            wits,
        )),
        Body::Create { bytecode_wit, salt, slots } => {
            let sl: Vec<StorageSlot> = slots
                .iter()
                .map(|(k, v)| StorageSlot::new(Bytes32::new(slot_key_b(*k)), Bytes32::new(slot_val_b(*v))))
                .collect();
            // `Transaction::create` sorts the slots and the mutable accessor re-sorts
            // on drop; the spec order is installed without running that destructor.
            let mut c = Transaction::create(*bytecode_wit, pol, Salt::new(salt_b(*salt)), sl.clone(), ins, outs, wits);
            if c.storage_slots().as_slice() != sl.as_slice() {
                let mut r = c.storage_slots_mut();
                *r.as_mut() = sl.clone();
                std::mem::forget(r);
            }
            assert!(c.storage_slots().as_slice() == sl.as_slice(), "harness: slot order not installed");
            Built::Create(c)
        }
        Body::UpgradeCp { wit, checksum } => Built::Upgrade(Transaction::upgrade(
            UpgradePurpose::ConsensusParameters {
                witness_index: *wit,
                checksum: Bytes32::new(*checksum),
            },
            pol,
            ins,
            outs,
            wits,
        )),
        Body::UpgradeSt { root } => Built::Upgrade(Transaction::upgrade(
            UpgradePurpose::StateTransition {
                root: Bytes32::new([0x90u8.wrapping_add(*root); 32]),
            },
            pol,
            ins,
            outs,
            wits,
        )),
        Body::Upload { root, wit, index, count, proof } => Built::Upload(Transaction::upload(
            UploadBody {
                root: Bytes32::new(*root),
                witness_index: *wit,
                subsection_index: *index,
                subsections_number: *count,
                proof_set: proof.iter().map(|p| Bytes32::new(*p)).collect(),
            },
            pol,
            ins,
            outs,
            wits,
        )),
        Body::Blob { id, wit } => Built::Blob(Transaction::blob(
            BlobBody {
                id: BlobId::new(*id),
                witness_index: *wit,
            },
            pol,
            ins,
            outs,
            wits,
        )),
        Body::Mint { height, tx_idx, contract, out_index, asset, amount, gas_price } => {
            Built::Mint(Transaction::mint(
                TxPointer::new((*height).into(), *tx_idx),
                InContract {
                    utxo_id: UtxoId::new(Bytes32::new(txid_b(1)), 0),
                    balance_root: Bytes32::new([0x0a; 32]),
                    state_root: Bytes32::new([0x0b; 32]),
                    tx_pointer: TxPointer::default(),
                    contract_id: ContractId::new(contract_b(*contract)),
                },
                OutContract {
                    input_index: *out_index,
                    balance_root: Bytes32::new([0x0c; 32]),
                    state_root: Bytes32::new([0x0d; 32]),
                },
                *amount,
                AssetId::new(asset_b(*asset)),
                *gas_price,
            ))
        }
    }
}

pub fn build_params(l: &Limits) -> ConsensusParameters {
    ConsensusParameters::new(
        TxParameters::DEFAULT
            .with_max_inputs(l.max_inputs)
            .with_max_outputs(l.max_outputs)
            .with_max_witnesses(l.max_witnesses)
            .with_max_gas_per_tx(l.max_gas_per_tx)
            .with_max_size(l.max_size)
            .with_max_bytecode_subsections(l.max_subsections),
        PredicateParameters::DEFAULT
            .with_max_predicate_length(l.max_pred)
            .with_max_predicate_data_length(l.max_pdata)
            .with_max_message_data_length(l.max_msg_data),
        ScriptParameters::DEFAULT
            .with_max_script_length(l.max_script)
            .with_max_script_data_length(l.max_script_data),
        ContractParameters::DEFAULT
            .with_contract_max_size(l.contract_max_size)
            .with_max_storage_slots(l.max_slots),
        FeeParameters::DEFAULT.with_gas_per_byte(0),
        ChainId::new(7),
        GasCosts::free(),
        AssetId::new(asset_b(BASE)),
        1 << 40,
        1 << 40,
        Address::new(addr_b(PRIV)),
    )
}

thread_local! {
    static PARAMS_CACHE: RefCell<Vec<(Limits, ConsensusParameters)>> = const { RefCell::new(Vec::new()) };
}

fn with_params<T>(l: &Limits, f: impl FnOnce(&ConsensusParameters) -> T) -> T {
    PARAMS_CACHE.with(|c| {
        let mut c = c.borrow_mut();
        if let Some(pos) = c.iter().position(|(k, _)| k == l) {
            return f(&c[pos].1)
        }
        if c.len() >= 32 {
            c.truncate(1); // keep the most common (first inserted) entry
        }
        c.push((l.clone(), build_params(l)));
        f(&c.last().unwrap().1)
    })
}

// ------------------------------------------------------------------ subject call

#[derive(Clone, Debug, PartialEq, Eq)]
pub struct ObsOk {
    /// recorded non-retryable free balances, keyed by asset id bytes (None for Mint)
    pub balances: Option<BTreeMap<B32, u64>>,
    /// recorded retryable amount (Script only)
    pub retryable: Option<u64>,
    /// base asset id recorded in the metadata
    pub meta_base: Option<B32>,
}

#[derive(Clone, Debug, PartialEq, Eq)]
pub enum Obs {
    Ok(ObsOk),
    /// name of the error variant (only used for labelling, never for the verdict)
    Err(String),
    Panic(String),
}

fn err_name(e: &fuel_vm::checked_transaction::CheckError) -> String {
    let s = format!("{e:?}");
    let s = s.strip_prefix("Validity(").unwrap_or(&s);
    s.chars().take_while(|c| c.is_ascii_alphanumeric()).collect()
}

/// Build the transaction, report its canonical size and run
/// `IntoChecked::into_checked_basic(height, params)`.
pub fn subject(c: &Case) -> (Obs, Result<u64, String>) {
    let built = match guard::catch_any(|| build(&c.tx)) {
        Ok(b) => b,
        Err(m) => return (Obs::Panic(format!("build: {m}")), Err(m)),
    };
    let h = c.height;
    macro_rules! run {
        ($tx:expr, $meta:expr) => {{
            let tx = $tx;
            let size = guard::catch_any(|| tx.size() as u64);
            let r = with_params(&c.lim, |p| guard::catch_any(|| tx.into_checked_basic(h.into(), p)));
            let obs = match r {
                Err(m) => Obs::Panic(m),
                Ok(Err(e)) => Obs::Err(err_name(&e)),
                Ok(Ok(ch)) => Obs::Ok($meta(ch.metadata())),
            };
            (obs, size)
        }};
    }
    fn map_of(m: &BTreeMap<AssetId, u64>) -> Option<BTreeMap<B32, u64>> {
        Some(m.iter().map(|(k, v)| (**k, *v)).collect())
    }
    match built {
        Built::Script(tx) => run!(tx, |m: &fuel_vm::checked_transaction::ScriptCheckedMetadata| ObsOk {
            balances: map_of(&m.non_retryable_balances),
            retryable: Some(*m.retryable_balance),
            meta_base: Some(*m.base_asset_id),
        }),
        Built::Create(tx) => run!(tx, |m: &fuel_vm::checked_transaction::CreateCheckedMetadata| ObsOk {
            balances: map_of(&m.free_balances),
            retryable: None,
            meta_base: Some(*m.base_asset_id),
        }),
        Built::Upgrade(tx) => run!(tx, |m: &fuel_vm::checked_transaction::UpgradeCheckedMetadata| ObsOk {
            balances: map_of(&m.free_balances),
            retryable: None,
            meta_base: Some(*m.base_asset_id),
        }),
        Built::Upload(tx) => run!(tx, |m: &fuel_vm::checked_transaction::UploadCheckedMetadata| ObsOk {
            balances: map_of(&m.free_balances),
            retryable: None,
            meta_base: Some(*m.base_asset_id),
        }),
        Built::Blob(tx) => run!(tx, |m: &fuel_vm::checked_transaction::BlobCheckedMetadata| ObsOk {
            balances: map_of(&m.free_balances),
            retryable: None,
            meta_base: Some(*m.base_asset_id),
        }),
        Built::Mint(tx) => run!(tx, |_m: &()| ObsOk {
            balances: None,
            retryable: None,
            meta_base: None,
        }),
    }
}
