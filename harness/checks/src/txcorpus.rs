//! txcorpus — enumerated (never random) generators for the protocol's wire types.
//!
//! Shared by the codec checks (C01, C02) and meant to be reused by C03, C04, C06, C07:
//! include with `#[path = "../txcorpus.rs"] mod txcorpus;`.
//!
//! Everything here is an explicit *enumeration*: a mixed-radix product whose digits are
//! taken from small named classes, so that `xxx_count()` and `xxx_at(idx)` describe a
//! finite space completely and the same index always yields the same value.
//!
//! # Classes
//!
//! * byte-vector lengths: `L = {0..=9}` (every residue mod 8, the empty vector, one full
//!   word plus one); `Lbig = L ∪ {15,16,17,255,256,257}` ([`Lens`]). Contents are
//!   non-zero bytes that depend on the field position ([`bytes_of`]), so padding bytes
//!   and swapped fields are distinguishable.
//! * words (`u64`): `{0, 1, pattern(pos), u64::MAX}`; `u32`/`u16` likewise
//!   (`pattern(pos)` differs per field position so swapped fields are visible).
//! * 32-byte ids: `{00…00, pattern(pos), ff…ff}`.
//! * nested `UtxoId` / `TxPointer` *inside* an input (or Mint) are taken from three joint
//!   classes {all zero, pattern, all max}; both types also exist as leaves of their own
//!   with the full product of their fields.
//!
//! Index 0 of every space is the simplest value (all zero, all vectors empty), so the
//! first counterexample of a failing class is the shortest one.
//!
//! # Leaf types ([`Leaf`], [`leaf_count`], [`leaf_at`])
//!
//! `Input` (7 kinds), `Output` (5 kinds), `Receipt` (13 kinds), `StorageSlot`, `UtxoId`,
//! `TxPointer`, `Witness`, `UpgradePurpose` (2 kinds), `Mint` (the only transaction kind
//! without policies/inputs/outputs/witnesses — it is a plain struct and is treated like a
//! leaf). Each as the *full product* of its fields' classes. With `shapes = true` all
//! scalar fields are pinned to their pattern class and only the vector lengths vary
//! (one value per wire *shape*; used as mutation seeds by C02).
//!
//! `Policies`: [`policies_all`] = all 64 masks × per-policy value classes (10,000
//! values, all inside the type's domain); [`policies_out_of_domain`] = values that
//! `Policies::set` accepts but the decoder rejects (maturity/expiration > u32::MAX —
//! both are `BlockHeight`s); [`policies_tx`] = the 128 used by the transaction corpus.
//!
//! NOTE (DESIGN.md §7 F2): leaf inputs include predicate variants with an EMPTY
//! predicate and message-data variants with EMPTY data. The wire format cannot
//! represent those (they decode as the signed / message-coin variant). See [`f2_class`].
//!
//! # Transaction corpus `TX(2)` ([`tx_count`], [`tx_at`], [`tx_corpus`])
//!
//! Six chargeable kinds ([`TX_KINDS`]: Script, Create, Upgrade(ConsensusParameters),
//! Upgrade(StateTransition), Upload, Blob), each a point in a 5-dimensional index space
//! `[P, I, O, W, B]` ([`tx_dims`], [`tx_build`]):
//!
//! * `P` policies: 128 = 64 masks × {small, max-valid}          ([`policies_tx`])
//! * `I` input lists: all 57 sequences of length ≤ 2 over the 7 kinds ([`input_list`])
//! * `O` output lists: all 31 sequences of length ≤ 2 over the 5 kinds ([`output_list`])
//! * `W` witness lists: 111 = length ≤ 2, each length from `L`   ([`witness_list`])
//! * `B` body, per kind ([`body_dim`]): Script 200 = script len (L) × script-data len
//!   (L) × {(gas 0, zero receipts root), (pattern, pattern)}; Create 9 = 0..2 storage
//!   slots × 3 scalar classes; Upgrade(CP) 9 = witness index × checksum classes;
//!   Upgrade(ST) 3 = root classes; Upload 9 = proof-set length 0..2 × 3 scalar classes;
//!   Blob 9 = id × witness-index classes.
//!
//! Levels ([`CorpusLevel`]):
//!
//! * `Star`  — for each kind and each of two base points (`b0` = everything empty /
//!   index 0, `b1` = a "rich" transaction: all 6 policies, two predicate inputs, two
//!   outputs, two witnesses, non-empty body) every dimension ranges over its FULL domain
//!   while the other four sit at the base point; plus all 35 (input kind, output kind)
//!   pairs per kind; plus 1,296 Mint values. ≈ 5.8 k transactions, returned as a `Vec`.
//! * `Full`  — the full product `kind × P × I × O × W × {b0 body, b1 body}`
//!   ([`body_full`]; the body dimension is exhausted by the star level), plus Mint:
//!   301,267,728 values — indexable only (`tx_at`), never materialised. Kind varies
//!   fastest, policies slowest, so a prefix covers all kinds.
//!
//! Validity: the corpus is a *wire-format* corpus. NO transaction in it is claimed to
//! pass `check`/`check_without_signatures` (measured by C01, height 0,
//! `ConsensusParameters::standard()`: of the 5,860 star transactions only 48 Mint values
//! pass `check_without_signatures`; no chargeable one does): predicate owners are patterns instead of
//! predicate roots, witness indices are not matched to the witness list, Create has no
//! bytecode witness / ContractCreated output, upload/blob bodies do not match a
//! witness, asset balances do not add up. What IS guaranteed: every transaction is
//! constructible through the public constructors, has `metadata == None`, contains only
//! inputs with non-empty predicate / message data (so it is outside the F2 class and
//! must round-trip), and every policy value is inside the decoder's domain. Consumers
//! that need valid transactions must filter (`FormatValidityChecks`) or build their own.

#![allow(dead_code)]

use fuel_tx::{
    field,
    policies::{
        Policies,
        PolicyType,
    },
    BlobBody,
    Input,
    Mint,
    Output,
    PanicInstruction,
    PanicReason,
    Receipt,
    ScriptExecutionResult,
    StorageSlot,
    Transaction,
    TxPointer,
    UpgradePurpose,
    UploadBody,
    UtxoId,
    Witness,
};
use fuel_types::{
    Address,
    AssetId,
    BlobId,
    BlockHeight,
    Bytes32,
    ContractId,
    Nonce,
    Salt,
    SubAssetId,
};
use std::sync::OnceLock;

// ------------------------------------------------------------------ classes

pub const L: [usize; 10] = [0, 1, 2, 3, 4, 5, 6, 7, 8, 9];
pub const LBIG: [usize; 16] = [0, 1, 2, 3, 4, 5, 6, 7, 8, 9, 15, 16, 17, 255, 256, 257];

#[derive(Clone, Copy, Debug, PartialEq, Eq, Hash)]
pub enum Lens {
    L,
    Lbig,
}

impl Lens {
    pub fn values(self) -> &'static [usize] {
        match self {
            Lens::L => &L,
            Lens::Lbig => &LBIG,
        }
    }

    pub fn name(self) -> &'static str {
        match self {
            Lens::L => "L",
            Lens::Lbig => "Lbig",
        }
    }

    pub fn from_name(s: &str) -> Lens {
        match s {
            "Lbig" => Lens::Lbig,
            _ => Lens::L,
        }
    }
}

/// `len` non-zero bytes whose values depend on `tag` (field position) and index.
pub fn bytes_of(len: usize, tag: u8) -> Vec<u8> {
    (0..len)
        .map(|i| 0x80 | ((tag as usize).wrapping_mul(7).wrapping_add(i) & 0x7f) as u8)
        .collect()
}

pub fn word_pattern(pos: u8) -> u64 {
    0x0102_0304_0506_0700 | pos as u64
}

pub fn u32_pattern(pos: u8) -> u32 {
    0x0102_0300 | pos as u32
}

pub fn u16_pattern(pos: u8) -> u16 {
    0x0100 | pos as u16
}

/// 32-byte id of class 0 (zero), 1 (position dependent pattern), 2 (all ff).
pub fn id32(class: u64, pos: u8) -> [u8; 32] {
    match class {
        0 => [0u8; 32],
        1 => {
            let mut b = [0u8; 32];
            for (i, x) in b.iter_mut().enumerate() {
                *x = (i as u8).wrapping_add(1).wrapping_add(pos.wrapping_mul(37));
            }
            b
        }
        _ => [0xffu8; 32],
    }
}

/// Mixed-radix digit reader. Running a builder once with `idx = 0` yields the size of
/// its space in `total` (all radices are independent of the digits drawn).
pub struct Dig {
    idx: u64,
    pub total: u64,
    lens: &'static [usize],
    pos: u8,
    shapes: bool,
}

impl Dig {
    pub fn new(idx: u64, lens: Lens, shapes: bool) -> Self {
        Dig {
            idx,
            total: 1,
            lens: lens.values(),
            pos: 0,
            shapes,
        }
    }

    /// Draw a digit with radix `n` (dimension drawn first varies fastest).
    pub fn pick(&mut self, n: u64) -> u64 {
        let d = self.idx % n;
        self.idx /= n;
        self.total = self.total.checked_mul(n).expect("leaf space exceeds u64");
        d
    }

    /// Scalar class digit; pinned to `pinned` in shapes mode.
    fn scalar(&mut self, n: u64, pinned: u64) -> u64 {
        if self.shapes {
            pinned
        } else {
            self.pick(n)
        }
    }

    fn next_pos(&mut self) -> u8 {
        self.pos = self.pos.wrapping_add(1);
        self.pos
    }

    pub fn word(&mut self) -> u64 {
        let p = self.next_pos();
        match self.scalar(4, 2) {
            0 => 0,
            1 => 1,
            2 => word_pattern(p),
            _ => u64::MAX,
        }
    }

    pub fn u32c(&mut self) -> u32 {
        let p = self.next_pos();
        match self.scalar(4, 2) {
            0 => 0,
            1 => 1,
            2 => u32_pattern(p),
            _ => u32::MAX,
        }
    }

    pub fn u16c(&mut self) -> u16 {
        let p = self.next_pos();
        match self.scalar(4, 2) {
            0 => 0,
            1 => 1,
            2 => u16_pattern(p),
            _ => u16::MAX,
        }
    }

    pub fn id(&mut self) -> [u8; 32] {
        let p = self.next_pos();
        let c = self.scalar(3, 1);
        id32(c, p)
    }

    /// Byte vector with a length from the length classes (never pinned).
    pub fn bytes(&mut self) -> Vec<u8> {
        let p = self.next_pos();
        let n = self.lens.len() as u64;
        let len = self.lens[self.pick(n) as usize];
        bytes_of(len, p)
    }

    /// UtxoId from three joint classes.
    pub fn utxo_coarse(&mut self) -> UtxoId {
        let p = self.next_pos();
        match self.scalar(3, 1) {
            0 => UtxoId::new(Bytes32::from(id32(0, p)), 0),
            1 => UtxoId::new(Bytes32::from(id32(1, p)), u16_pattern(p)),
            _ => UtxoId::new(Bytes32::from(id32(2, p)), u16::MAX),
        }
    }

    /// TxPointer from three joint classes.
    pub fn txptr_coarse(&mut self) -> TxPointer {
        let p = self.next_pos();
        match self.scalar(3, 1) {
            0 => TxPointer::new(BlockHeight::from(0u32), 0),
            1 => TxPointer::new(BlockHeight::from(u32_pattern(p)), u16_pattern(p).into()),
            _ => TxPointer::new(BlockHeight::from(u32::MAX), u16::MAX.into()),
        }
    }
}

// ------------------------------------------------------------------ leaf builders

pub const INPUT_KINDS: [&str; 7] = [
    "CoinSigned",
    "CoinPredicate",
    "Contract",
    "MessageCoinSigned",
    "MessageCoinPredicate",
    "MessageDataSigned",
    "MessageDataPredicate",
];

pub const OUTPUT_KINDS: [&str; 5] = ["Coin", "Contract", "Change", "Variable", "ContractCreated"];

pub const RECEIPT_KINDS: [&str; 13] = [
    "Call",
    "Return",
    "ReturnData",
    "Panic",
    "Revert",
    "Log",
    "LogData",
    "Transfer",
    "TransferOut",
    "ScriptResult",
    "MessageOut",
    "Mint",
    "Burn",
];

pub const UPGRADE_PURPOSE_KINDS: [&str; 2] = ["ConsensusParameters", "StateTransition"];

pub fn gen_input(kind: usize, d: &mut Dig) -> Input {
    match kind {
        0 => Input::coin_signed(
            d.utxo_coarse(),
            Address::from(d.id()),
            d.word(),
            AssetId::from(d.id()),
            d.txptr_coarse(),
            d.u16c(),
        ),
        1 => Input::coin_predicate(
            d.utxo_coarse(),
            Address::from(d.id()),
            d.word(),
            AssetId::from(d.id()),
            d.txptr_coarse(),
            d.word(),
            d.bytes(),
            d.bytes(),
        ),
        2 => Input::contract(
            d.utxo_coarse(),
            Bytes32::from(d.id()),
            Bytes32::from(d.id()),
            d.txptr_coarse(),
            ContractId::from(d.id()),
        ),
        3 => Input::message_coin_signed(
            Address::from(d.id()),
            Address::from(d.id()),
            d.word(),
            Nonce::from(d.id()),
            d.u16c(),
        ),
        4 => Input::message_coin_predicate(
            Address::from(d.id()),
            Address::from(d.id()),
            d.word(),
            Nonce::from(d.id()),
            d.word(),
            d.bytes(),
            d.bytes(),
        ),
        5 => Input::message_data_signed(
            Address::from(d.id()),
            Address::from(d.id()),
            d.word(),
            Nonce::from(d.id()),
            d.u16c(),
            d.bytes(),
        ),
        6 => Input::message_data_predicate(
            Address::from(d.id()),
            Address::from(d.id()),
            d.word(),
            Nonce::from(d.id()),
            d.word(),
            d.bytes(),
            d.bytes(),
            d.bytes(),
        ),
        _ => panic!("input kind out of range"),
    }
}

pub fn gen_output(kind: usize, d: &mut Dig) -> Output {
    match kind {
        0 => Output::coin(Address::from(d.id()), d.word(), AssetId::from(d.id())),
        1 => Output::contract(d.u16c(), Bytes32::from(d.id()), Bytes32::from(d.id())),
        2 => Output::change(Address::from(d.id()), d.word(), AssetId::from(d.id())),
        3 => Output::variable(Address::from(d.id()), d.word(), AssetId::from(d.id())),
        4 => Output::contract_created(ContractId::from(d.id()), Bytes32::from(d.id())),
        _ => panic!("output kind out of range"),
    }
}

/// Payload classes of the receipt `data` field (not part of the wire format).
fn opt_payload(d: &mut Dig) -> Option<Vec<u8>> {
    let p = d.next_pos();
    match d.scalar(3, 2) {
        0 => None,
        1 => Some(vec![]),
        _ => Some(bytes_of(3, p)),
    }
}

pub const PANIC_REASON_BYTES: [u8; 4] = [0x00, 0x01, 0x02, 0x0d];

pub fn gen_receipt(kind: usize, d: &mut Dig) -> Receipt {
    match kind {
        0 => Receipt::call(
            ContractId::from(d.id()),
            ContractId::from(d.id()),
            d.word(),
            AssetId::from(d.id()),
            d.word(),
            d.word(),
            d.word(),
            d.word(),
            d.word(),
        ),
        1 => Receipt::ret(ContractId::from(d.id()), d.word(), d.word(), d.word()),
        2 => Receipt::return_data_with_len(
            ContractId::from(d.id()),
            d.word(),
            d.word(),
            Bytes32::from(d.id()),
            d.word(),
            d.word(),
            opt_payload(d),
        ),
        3 => {
            let id = ContractId::from(d.id());
            let reason = PanicReason::from(PANIC_REASON_BYTES[d.scalar(4, 2) as usize]);
            let instr = d.u32c();
            let pc = d.word();
            let is = d.word();
            let p = d.next_pos();
            let cid = match d.scalar(2, 1) {
                0 => None,
                _ => Some(ContractId::from(id32(1, p))),
            };
            Receipt::panic(id, PanicInstruction::error(reason, instr), pc, is)
                .with_panic_contract_id(cid)
        }
        4 => Receipt::revert(ContractId::from(d.id()), d.word(), d.word(), d.word()),
        5 => Receipt::log(
            ContractId::from(d.id()),
            d.word(),
            d.word(),
            d.word(),
            d.word(),
            d.word(),
            d.word(),
        ),
        6 => Receipt::log_data_with_len(
            ContractId::from(d.id()),
            d.word(),
            d.word(),
            d.word(),
            d.word(),
            Bytes32::from(d.id()),
            d.word(),
            d.word(),
            opt_payload(d),
        ),
        7 => Receipt::transfer(
            ContractId::from(d.id()),
            ContractId::from(d.id()),
            d.word(),
            AssetId::from(d.id()),
            d.word(),
            d.word(),
        ),
        8 => Receipt::transfer_out(
            ContractId::from(d.id()),
            Address::from(d.id()),
            d.word(),
            AssetId::from(d.id()),
            d.word(),
            d.word(),
        ),
        9 => {
            let p = d.next_pos();
            let result = match d.scalar(7, 5) {
                0 => ScriptExecutionResult::Success,
                1 => ScriptExecutionResult::Revert,
                2 => ScriptExecutionResult::Panic,
                3 => ScriptExecutionResult::GenericFailure(0),
                4 => ScriptExecutionResult::GenericFailure(3),
                5 => ScriptExecutionResult::GenericFailure(word_pattern(p)),
                _ => ScriptExecutionResult::GenericFailure(u64::MAX),
            };
            Receipt::script_result(result, d.word())
        }
        10 => Receipt::message_out_with_len(
            Address::from(d.id()),
            Address::from(d.id()),
            d.word(),
            Nonce::from(d.id()),
            d.word(),
            Bytes32::from(d.id()),
            opt_payload(d),
        ),
        11 => Receipt::mint(
            SubAssetId::from(d.id()),
            ContractId::from(d.id()),
            d.word(),
            d.word(),
            d.word(),
        ),
        12 => Receipt::burn(
            SubAssetId::from(d.id()),
            ContractId::from(d.id()),
            d.word(),
            d.word(),
            d.word(),
        ),
        _ => panic!("receipt kind out of range"),
    }
}

pub fn gen_storage_slot(d: &mut Dig) -> StorageSlot {
    StorageSlot::new(Bytes32::from(d.id()), Bytes32::from(d.id()))
}

pub fn gen_utxo_id(d: &mut Dig) -> UtxoId {
    UtxoId::new(Bytes32::from(d.id()), d.u16c())
}

pub fn gen_tx_pointer(d: &mut Dig) -> TxPointer {
    // tx_index is u16 in the compiled feature set (`u32-tx-pointer` is off in the harness)
    TxPointer::new(BlockHeight::from(d.u32c()), d.u16c().into())
}

pub fn gen_witness(d: &mut Dig) -> Witness {
    Witness::from(d.bytes())
}

pub fn gen_upgrade_purpose(kind: usize, d: &mut Dig) -> UpgradePurpose {
    match kind {
        0 => UpgradePurpose::ConsensusParameters {
            witness_index: d.u16c(),
            checksum: Bytes32::from(d.id()),
        },
        1 => UpgradePurpose::StateTransition {
            root: Bytes32::from(d.id()),
        },
        _ => panic!("upgrade purpose kind out of range"),
    }
}

fn in_contract_coarse(d: &mut Dig) -> fuel_tx::input::contract::Contract {
    let p = d.next_pos();
    let c = d.scalar(3, 1);
    let (utxo, ptr) = match c {
        0 => (UtxoId::new(Bytes32::from(id32(0, p)), 0), TxPointer::new(0u32.into(), 0)),
        1 => (
            UtxoId::new(Bytes32::from(id32(1, p)), u16_pattern(p)),
            TxPointer::new(u32_pattern(p).into(), u16_pattern(p).into()),
        ),
        _ => (
            UtxoId::new(Bytes32::from(id32(2, p)), u16::MAX),
            TxPointer::new(u32::MAX.into(), u16::MAX.into()),
        ),
    };
    fuel_tx::input::contract::Contract {
        utxo_id: utxo,
        balance_root: Bytes32::from(id32(c, p.wrapping_add(1))),
        state_root: Bytes32::from(id32(c, p.wrapping_add(2))),
        tx_pointer: ptr,
        contract_id: ContractId::from(id32(c, p.wrapping_add(3))),
    }
}

fn out_contract_coarse(d: &mut Dig) -> fuel_tx::output::contract::Contract {
    let p = d.next_pos();
    let c = d.scalar(3, 1);
    fuel_tx::output::contract::Contract {
        input_index: match c {
            0 => 0,
            1 => u16_pattern(p),
            _ => u16::MAX,
        },
        balance_root: Bytes32::from(id32(c, p.wrapping_add(4))),
        state_root: Bytes32::from(id32(c, p.wrapping_add(5))),
    }
}

pub fn gen_mint(d: &mut Dig) -> Mint {
    Transaction::mint(
        d.txptr_coarse(),
        in_contract_coarse(d),
        out_contract_coarse(d),
        d.word(),
        AssetId::from(d.id()),
        d.word(),
    )
}

// ------------------------------------------------------------------ leaf spaces

#[derive(Clone, Copy, Debug, PartialEq, Eq, Hash)]
pub enum Leaf {
    Input(usize),
    Output(usize),
    Receipt(usize),
    StorageSlot,
    UtxoId,
    TxPointer,
    Witness,
    UpgradePurpose(usize),
    Mint,
}

#[derive(Clone, Debug)]
pub enum LeafValue {
    Input(Input),
    Output(Output),
    Receipt(Receipt),
    StorageSlot(StorageSlot),
    UtxoId(UtxoId),
    TxPointer(TxPointer),
    Witness(Witness),
    UpgradePurpose(UpgradePurpose),
    Mint(Mint),
}

impl Leaf {
    /// All leaf families, simplest first.
    pub fn all() -> Vec<Leaf> {
        let mut v = vec![Leaf::UtxoId, Leaf::TxPointer, Leaf::StorageSlot, Leaf::Witness];
        v.extend((0..UPGRADE_PURPOSE_KINDS.len()).map(Leaf::UpgradePurpose));
        v.extend((0..OUTPUT_KINDS.len()).map(Leaf::Output));
        v.extend((0..INPUT_KINDS.len()).map(Leaf::Input));
        v.extend((0..RECEIPT_KINDS.len()).map(Leaf::Receipt));
        v.push(Leaf::Mint);
        v
    }

    /// Protocol type name.
    pub fn type_name(self) -> &'static str {
        match self {
            Leaf::Input(_) => "Input",
            Leaf::Output(_) => "Output",
            Leaf::Receipt(_) => "Receipt",
            Leaf::StorageSlot => "StorageSlot",
            Leaf::UtxoId => "UtxoId",
            Leaf::TxPointer => "TxPointer",
            Leaf::Witness => "Witness",
            Leaf::UpgradePurpose(_) => "UpgradePurpose",
            Leaf::Mint => "Transaction",
        }
    }

    /// `Type::Variant` (or just `Type` for structs).
    pub fn name(self) -> String {
        match self {
            Leaf::Input(k) => format!("Input::{}", INPUT_KINDS[k]),
            Leaf::Output(k) => format!("Output::{}", OUTPUT_KINDS[k]),
            Leaf::Receipt(k) => format!("Receipt::{}", RECEIPT_KINDS[k]),
            Leaf::UpgradePurpose(k) => format!("UpgradePurpose::{}", UPGRADE_PURPOSE_KINDS[k]),
            Leaf::Mint => "Transaction::Mint".to_string(),
            other => other.type_name().to_string(),
        }
    }

    pub fn from_name(s: &str) -> Option<Leaf> {
        Leaf::all().into_iter().find(|l| l.name() == s)
    }
}

fn gen_leaf(leaf: Leaf, d: &mut Dig) -> LeafValue {
    match leaf {
        Leaf::Input(k) => LeafValue::Input(gen_input(k, d)),
        Leaf::Output(k) => LeafValue::Output(gen_output(k, d)),
        Leaf::Receipt(k) => LeafValue::Receipt(gen_receipt(k, d)),
        Leaf::StorageSlot => LeafValue::StorageSlot(gen_storage_slot(d)),
        Leaf::UtxoId => LeafValue::UtxoId(gen_utxo_id(d)),
        Leaf::TxPointer => LeafValue::TxPointer(gen_tx_pointer(d)),
        Leaf::Witness => LeafValue::Witness(gen_witness(d)),
        Leaf::UpgradePurpose(k) => LeafValue::UpgradePurpose(gen_upgrade_purpose(k, d)),
        Leaf::Mint => LeafValue::Mint(gen_mint(d)),
    }
}

/// Size of the leaf family's space (`shapes`: scalars pinned, only lengths vary).
pub fn leaf_count(leaf: Leaf, lens: Lens, shapes: bool) -> u64 {
    let mut d = Dig::new(0, lens, shapes);
    let _ = gen_leaf(leaf, &mut d);
    d.total
}

pub fn leaf_at(leaf: Leaf, lens: Lens, shapes: bool, idx: u64) -> LeafValue {
    let mut d = Dig::new(idx, lens, shapes);
    gen_leaf(leaf, &mut d)
}

pub fn input_count(kind: usize, lens: Lens) -> u64 {
    leaf_count(Leaf::Input(kind), lens, false)
}

pub fn input_at(kind: usize, lens: Lens, idx: u64) -> Input {
    gen_input(kind, &mut Dig::new(idx, lens, false))
}

pub fn output_count(kind: usize) -> u64 {
    leaf_count(Leaf::Output(kind), Lens::L, false)
}

pub fn output_at(kind: usize, idx: u64) -> Output {
    gen_output(kind, &mut Dig::new(idx, Lens::L, false))
}

pub fn receipt_count(kind: usize) -> u64 {
    leaf_count(Leaf::Receipt(kind), Lens::L, false)
}

pub fn receipt_at(kind: usize, idx: u64) -> Receipt {
    gen_receipt(kind, &mut Dig::new(idx, Lens::L, false))
}

pub fn mint_count() -> u64 {
    leaf_count(Leaf::Mint, Lens::L, false)
}

pub fn mint_at(idx: u64) -> Mint {
    gen_mint(&mut Dig::new(idx, Lens::L, false))
}

/// If `input` belongs to the wire-format ambiguity class of DESIGN.md §7 F2, the name of
/// the class: the empty field(s) that make the encoding indistinguishable from another
/// variant (`predicate.len=0`, `data.len=0`, or both).
pub fn f2_class(input: &Input) -> Option<&'static str> {
    let pred_empty = matches!(
        input,
        Input::CoinPredicate(_) | Input::MessageCoinPredicate(_) | Input::MessageDataPredicate(_)
    ) && input.input_predicate().map(|p| p.is_empty()).unwrap_or(false);
    let data_empty = matches!(input, Input::MessageDataSigned(_) | Input::MessageDataPredicate(_))
        && input.input_data().map(|p| p.is_empty()).unwrap_or(false);
    match (data_empty, pred_empty) {
        (false, false) => None,
        (false, true) => Some("predicate.len=0"),
        (true, false) => Some("data.len=0"),
        (true, true) => Some("data.len=0,predicate.len=0"),
    }
}

pub fn input_variant_name(input: &Input) -> &'static str {
    match input {
        Input::CoinSigned(_) => INPUT_KINDS[0],
        Input::CoinPredicate(_) => INPUT_KINDS[1],
        Input::Contract(_) => INPUT_KINDS[2],
        Input::MessageCoinSigned(_) => INPUT_KINDS[3],
        Input::MessageCoinPredicate(_) => INPUT_KINDS[4],
        Input::MessageDataSigned(_) => INPUT_KINDS[5],
        Input::MessageDataPredicate(_) => INPUT_KINDS[6],
    }
}

// ------------------------------------------------------------------ policies

pub const POLICY_TYPES: [PolicyType; 6] = [
    PolicyType::Tip,
    PolicyType::WitnessLimit,
    PolicyType::Maturity,
    PolicyType::MaxFee,
    PolicyType::Expiration,
    PolicyType::Owner,
];

/// In-domain value classes per policy (bit order). Maturity and Expiration are block
/// heights (u32): the decoder rejects anything larger. Owner is an input index:
/// `Policies::is_valid` wants it <= u32::MAX but the decoder accepts any word, so
/// u64::MAX is inside the codec's domain and must round-trip.
pub fn policy_value_classes(t: PolicyType) -> Vec<u64> {
    let p = word_pattern(0xA0 + t.index() as u8);
    match t {
        PolicyType::Tip | PolicyType::WitnessLimit | PolicyType::MaxFee => vec![0, 1, p, u64::MAX],
        PolicyType::Maturity | PolicyType::Expiration => vec![0, 1, u32::MAX as u64],
        PolicyType::Owner => vec![0, 1, u32::MAX as u64, u64::MAX],
    }
}

pub fn policies_from(mask: u32, value_of: impl Fn(PolicyType) -> u64) -> Policies {
    let mut p = Policies::new();
    for t in POLICY_TYPES {
        if mask & (1 << t.index()) != 0 {
            p.set(t, Some(value_of(t)));
        }
    }
    p
}

/// All 64 masks × all combinations of in-domain value classes of the set policies
/// (∏ over policies of (1 + classes) = 5·5·4·5·4·5 = 10,000), ordered by mask.
pub fn policies_all() -> Vec<Policies> {
    let mut out = Vec::new();
    for mask in 0u32..64 {
        let set: Vec<PolicyType> = POLICY_TYPES
            .iter()
            .copied()
            .filter(|t| mask & (1 << t.index()) != 0)
            .collect();
        let classes: Vec<Vec<u64>> = set.iter().map(|t| policy_value_classes(*t)).collect();
        let n: u64 = classes.iter().map(|c| c.len() as u64).product();
        for mut idx in 0..n {
            let mut p = Policies::new();
            for (t, c) in set.iter().zip(classes.iter()) {
                let v = c[(idx % c.len() as u64) as usize];
                idx /= c.len() as u64;
                p.set(*t, Some(v));
            }
            out.push(p);
        }
    }
    out
}

/// Values `Policies::set` accepts but that are outside the wire format's domain
/// (maturity / expiration above u32::MAX): the decoder must reject them. Informational.
pub fn policies_out_of_domain() -> Vec<Policies> {
    let mut out = Vec::new();
    for t in [PolicyType::Maturity, PolicyType::Expiration] {
        for v in [1u64 << 32, u64::MAX] {
            let mut p = Policies::new();
            p.set(t, Some(v));
            out.push(p);
            let mut q = policies_from(63, |t| t.index() as u64 + 1);
            q.set(t, Some(v));
            out.push(q);
        }
    }
    out
}

/// The 128 policy sets of the transaction corpus: index = mask * 2 + class;
/// class 0 "small": value = bit index + 1; class 1 "max-valid": u64::MAX for tip /
/// witness limit / max fee, u32::MAX for maturity / expiration / owner.
pub fn policies_tx_at(idx: u64) -> Policies {
    let mask = (idx / 2) as u32;
    if idx % 2 == 0 {
        policies_from(mask, |t| t.index() as u64 + 1)
    } else {
        policies_from(mask, |t| match t {
            PolicyType::Tip | PolicyType::WitnessLimit | PolicyType::MaxFee => u64::MAX,
            _ => u32::MAX as u64,
        })
    }
}

pub fn policies_tx() -> Vec<Policies> {
    (0..128).map(policies_tx_at).collect()
}

// ------------------------------------------------------------------ transaction corpus

pub const TX_KINDS: [&str; 6] = [
    "Script",
    "Create",
    "Upgrade(ConsensusParameters)",
    "Upgrade(StateTransition)",
    "Upload",
    "Blob",
];

pub const DIM_NAMES: [&str; 5] = ["policies", "inputs", "outputs", "witnesses", "body"];

/// Representative input of `kind` for list position `slot` (0 or 1). Predicates and
/// message data are NON-empty (outside the F2 class); vector lengths differ mod 8
/// between the two slots.
pub fn base_input(kind: usize, slot: usize) -> Input {
    let s = slot as u8;
    let t = 0x40 + 0x10 * s;
    let id = |k: u8| id32(1, t + k);
    let utxo = UtxoId::new(Bytes32::from(id(0)), 1 + s as u16);
    let ptr = TxPointer::new(BlockHeight::from(7 + s as u32), (3 + s as u16).into());
    let amount = word_pattern(t);
    let gas = 1000 + s as u64;
    let (plen, pdlen, dlen) = if slot == 0 { (5, 3, 4) } else { (8, 0, 9) };
    match kind {
        0 => Input::coin_signed(utxo, id(1).into(), amount, id(2).into(), ptr, s as u16),
        1 => Input::coin_predicate(
            utxo,
            id(1).into(),
            amount,
            id(2).into(),
            ptr,
            gas,
            bytes_of(plen, t),
            bytes_of(pdlen, t + 1),
        ),
        2 => Input::contract(utxo, id(3).into(), id(4).into(), ptr, id(5).into()),
        3 => Input::message_coin_signed(id(6).into(), id(7).into(), amount, id(8).into(), s as u16),
        4 => Input::message_coin_predicate(
            id(6).into(),
            id(7).into(),
            amount,
            id(8).into(),
            gas,
            bytes_of(plen, t),
            bytes_of(pdlen, t + 1),
        ),
        5 => Input::message_data_signed(
            id(6).into(),
            id(7).into(),
            amount,
            id(8).into(),
            s as u16,
            bytes_of(dlen, t + 2),
        ),
        6 => Input::message_data_predicate(
            id(6).into(),
            id(7).into(),
            amount,
            id(8).into(),
            gas,
            bytes_of(dlen, t + 2),
            bytes_of(plen, t),
            bytes_of(pdlen, t + 1),
        ),
        _ => panic!("input kind out of range"),
    }
}

pub fn base_output(kind: usize, slot: usize) -> Output {
    let s = slot as u8;
    let t = 0x80 + 0x10 * s;
    let id = |k: u8| id32(1, t + k);
    match kind {
        0 => Output::coin(id(0).into(), word_pattern(t), id(1).into()),
        1 => Output::contract(s as u16, id(2).into(), id(3).into()),
        2 => Output::change(id(0).into(), word_pattern(t + 1), id(1).into()),
        3 => Output::variable(id(0).into(), word_pattern(t + 2), id(1).into()),
        4 => Output::contract_created(id(4).into(), id(5).into()),
        _ => panic!("output kind out of range"),
    }
}

/// Number of sequences of length <= 2 over an alphabet of size a.
const fn seq2_count(a: u64) -> u64 {
    1 + a + a * a
}

/// The idx-th sequence of length <= 2 over 0..a (shortest first, then lexicographic).
pub fn seq2_at(a: u64, idx: u64) -> Vec<u64> {
    if idx == 0 {
        vec![]
    } else if idx <= a {
        vec![idx - 1]
    } else {
        let r = idx - 1 - a;
        vec![r / a, r % a]
    }
}

pub fn seq2_index(a: u64, seq: &[u64]) -> u64 {
    match seq {
        [] => 0,
        [x] => 1 + x,
        [x, y] => 1 + a + x * a + y,
        _ => panic!("sequence longer than 2"),
    }
}

pub const N_POLICIES: u64 = 128;
pub const N_INPUT_LISTS: u64 = seq2_count(7);
pub const N_OUTPUT_LISTS: u64 = seq2_count(5);
pub const N_WITNESS_LISTS: u64 = seq2_count(10);

pub fn input_list(idx: u64) -> Vec<Input> {
    seq2_at(7, idx)
        .iter()
        .enumerate()
        .map(|(slot, k)| base_input(*k as usize, slot))
        .collect()
}

pub fn output_list(idx: u64) -> Vec<Output> {
    seq2_at(5, idx)
        .iter()
        .enumerate()
        .map(|(slot, k)| base_output(*k as usize, slot))
        .collect()
}

pub fn witness_list(idx: u64) -> Vec<Witness> {
    seq2_at(10, idx)
        .iter()
        .enumerate()
        .map(|(slot, l)| Witness::from(bytes_of(L[*l as usize], 0xC0 + slot as u8)))
        .collect()
}

/// Size of the body dimension of `kind`.
pub fn body_dim(kind: usize) -> u64 {
    match kind {
        0 => 200,
        1 => 9,
        2 => 9,
        3 => 3,
        4 => 9,
        5 => 9,
        _ => panic!("tx kind out of range"),
    }
}

/// `[P, I, O, W, B]` sizes for `kind`.
pub fn tx_dims(kind: usize) -> [u64; 5] {
    [N_POLICIES, N_INPUT_LISTS, N_OUTPUT_LISTS, N_WITNESS_LISTS, body_dim(kind)]
}

/// Body points used by the Full product: the body index of the two star base points
/// (`b0` empty body, `b1` rich body). The body dimension is covered completely by the
/// star level; it does not interact with the other four dimensions.
pub fn body_full(kind: usize) -> [u64; 2] {
    let bp = base_points(kind);
    [bp[0][4], bp[1][4]]
}

fn u16_class(c: u64, pos: u8) -> u16 {
    match c {
        0 => 0,
        1 => u16_pattern(pos),
        _ => u16::MAX,
    }
}

/// Build the transaction of `kind` at index vector `ix = [p, i, o, w, b]`.
pub fn tx_build(kind: usize, ix: [u64; 5]) -> Transaction {
    let dims = tx_dims(kind);
    for k in 0..5 {
        assert!(ix[k] < dims[k], "tx index out of range in dimension {}", DIM_NAMES[k]);
    }
    let policies = policies_tx_at(ix[0]);
    let inputs = input_list(ix[1]);
    let outputs = output_list(ix[2]);
    let witnesses = witness_list(ix[3]);
    let b = ix[4];
    match kind {
        0 => {
            let sl = L[(b % 10) as usize];
            let dl = L[((b / 10) % 10) as usize];
            let cls = b / 100;
            let gas = if cls == 0 { 0 } else { word_pattern(0xE0) };
            let mut tx = Transaction::script(
                gas,
                bytes_of(sl, 0xE1),
                bytes_of(dl, 0xE2),
                policies,
                inputs,
                outputs,
                witnesses,
            );
            if cls != 0 {
                *field::ReceiptsRoot::receipts_root_mut(&mut tx) = Bytes32::from(id32(1, 0xE3));
            }
            tx.into()
        }
        1 => {
            let n = b % 3;
            let cls = b / 3;
            let slots: Vec<StorageSlot> = (0..n)
                .map(|k| {
                    StorageSlot::new(
                        Bytes32::from(id32(1, 0xE4 + 2 * k as u8)),
                        Bytes32::from(id32(1, 0xE5 + 2 * k as u8)),
                    )
                })
                .collect();
            Transaction::create(
                u16_class(cls, 0xE6),
                policies,
                Salt::from(id32(cls, 0xE7)),
                slots,
                inputs,
                outputs,
                witnesses,
            )
            .into()
        }
        2 => {
            let purpose = UpgradePurpose::ConsensusParameters {
                witness_index: u16_class(b % 3, 0xE8),
                checksum: Bytes32::from(id32(b / 3, 0xE9)),
            };
            Transaction::upgrade(purpose, policies, inputs, outputs, witnesses).into()
        }
        3 => {
            let purpose = UpgradePurpose::StateTransition {
                root: Bytes32::from(id32(b, 0xEA)),
            };
            Transaction::upgrade(purpose, policies, inputs, outputs, witnesses).into()
        }
        4 => {
            let n = b % 3;
            let cls = b / 3;
            let body = UploadBody {
                root: Bytes32::from(id32(cls, 0xEB)),
                witness_index: u16_class(cls, 0xEC),
                subsection_index: u16_class(cls, 0xED),
                subsections_number: u16_class(cls, 0xEE),
                proof_set: (0..n).map(|k| Bytes32::from(id32(1, 0xF0 + k as u8))).collect(),
            };
            Transaction::upload(body, policies, inputs, outputs, witnesses).into()
        }
        5 => {
            let body = BlobBody {
                id: BlobId::from(id32(b % 3, 0xF3)),
                witness_index: u16_class(b / 3, 0xF4),
            };
            Transaction::blob(body, policies, inputs, outputs, witnesses).into()
        }
        _ => panic!("tx kind out of range"),
    }
}

/// The two star base points of `kind`: `b0` everything empty, `b1` rich.
pub fn base_points(kind: usize) -> [[u64; 5]; 2] {
    let b1_body = match kind {
        0 => 5 + 3 * 10 + 100, // script 5 bytes, data 3 bytes, pattern gas/root
        1 => 2 + 3,            // 2 storage slots, pattern scalars
        2 => 1 + 3,            // pattern witness index, pattern checksum
        3 => 1,
        4 => 2 + 3, // 2 proof nodes, pattern scalars
        5 => 1 + 3,
        _ => panic!("tx kind out of range"),
    };
    [
        [0, 0, 0, 0, 0],
        [
            63 * 2,                   // all six policies, small values
            seq2_index(7, &[1, 6]),   // [CoinPredicate, MessageDataPredicate]
            seq2_index(5, &[0, 1]),   // [Coin, Contract]
            seq2_index(10, &[3, 8]),  // witnesses of 3 and 8 bytes
            b1_body,
        ],
    ]
}

#[derive(Clone, Copy, Debug, PartialEq, Eq, Hash)]
pub enum CorpusLevel {
    Star,
    Full,
}

impl CorpusLevel {
    pub fn name(self) -> &'static str {
        match self {
            CorpusLevel::Star => "Star",
            CorpusLevel::Full => "Full",
        }
    }

    pub fn from_name(s: &str) -> CorpusLevel {
        match s {
            "Full" => CorpusLevel::Full,
            _ => CorpusLevel::Star,
        }
    }
}

/// Where a corpus element comes from.
#[derive(Clone, Copy, Debug, PartialEq, Eq, Hash)]
pub enum TxPoint {
    Chargeable { kind: usize, ix: [u64; 5] },
    Mint { idx: u64 },
}

impl TxPoint {
    pub fn build(&self) -> Transaction {
        match self {
            TxPoint::Chargeable { kind, ix } => tx_build(*kind, *ix),
            TxPoint::Mint { idx } => mint_at(*idx).into(),
        }
    }

    pub fn kind_name(&self) -> &'static str {
        match self {
            TxPoint::Chargeable { kind, .. } => TX_KINDS[*kind],
            TxPoint::Mint { .. } => "Mint",
        }
    }

    pub fn describe(&self) -> String {
        match self {
            TxPoint::Chargeable { kind, ix } => format!(
                "{} policies#{} inputs{:?} outputs{:?} witness_lens{:?} body#{}",
                TX_KINDS[*kind],
                ix[0],
                seq2_at(7, ix[1]).iter().map(|k| INPUT_KINDS[*k as usize]).collect::<Vec<_>>(),
                seq2_at(5, ix[2]).iter().map(|k| OUTPUT_KINDS[*k as usize]).collect::<Vec<_>>(),
                seq2_at(10, ix[3]),
                ix[4]
            ),
            TxPoint::Mint { idx } => format!("Mint #{idx}"),
        }
    }
}

fn star_points() -> &'static Vec<TxPoint> {
    static STAR: OnceLock<Vec<TxPoint>> = OnceLock::new();
    STAR.get_or_init(|| {
        let mut seen = std::collections::HashSet::new();
        let mut out = Vec::new();
        let mut push = |p: TxPoint, out: &mut Vec<TxPoint>| {
            if seen.insert(p) {
                out.push(p);
            }
        };
        for kind in 0..TX_KINDS.len() {
            let dims = tx_dims(kind);
            for base in base_points(kind) {
                push(TxPoint::Chargeable { kind, ix: base }, &mut out);
                for dim in 0..5 {
                    for v in 0..dims[dim] {
                        let mut ix = base;
                        ix[dim] = v;
                        push(TxPoint::Chargeable { kind, ix }, &mut out);
                    }
                }
            }
            // all (input kind, output kind) pairs at b0
            for ik in 0..7u64 {
                for ok in 0..5u64 {
                    let ix = [0, seq2_index(7, &[ik]), seq2_index(5, &[ok]), 0, 0];
                    push(TxPoint::Chargeable { kind, ix }, &mut out);
                }
            }
        }
        for idx in 0..mint_count() {
            push(TxPoint::Mint { idx }, &mut out);
        }
        out
    })
}

const FULL_CHARGEABLE: u64 = 6 * 2 * N_WITNESS_LISTS * N_OUTPUT_LISTS * N_INPUT_LISTS * N_POLICIES;

/// Number of transactions at `level`.
pub fn tx_count(level: CorpusLevel) -> u64 {
    match level {
        CorpusLevel::Star => star_points().len() as u64,
        CorpusLevel::Full => FULL_CHARGEABLE + mint_count(),
    }
}

/// Origin of the idx-th transaction at `level`.
pub fn tx_point(level: CorpusLevel, idx: u64) -> TxPoint {
    match level {
        CorpusLevel::Star => star_points()[idx as usize],
        CorpusLevel::Full => {
            if idx >= FULL_CHARGEABLE {
                let rest = idx - FULL_CHARGEABLE;
                assert!(rest < mint_count(), "tx index out of range");
                return TxPoint::Mint { idx: rest }
            }
            // kind varies fastest, then body point, witnesses, outputs, inputs; policies
            // slowest — so any prefix of the enumeration covers every kind
            let mut rest = idx;
            let kind = (rest % 6) as usize;
            rest /= 6;
            let b = body_full(kind)[(rest % 2) as usize];
            rest /= 2;
            let w = rest % N_WITNESS_LISTS;
            rest /= N_WITNESS_LISTS;
            let o = rest % N_OUTPUT_LISTS;
            rest /= N_OUTPUT_LISTS;
            let i = rest % N_INPUT_LISTS;
            rest /= N_INPUT_LISTS;
            let p = rest;
            TxPoint::Chargeable {
                kind,
                ix: [p, i, o, w, b],
            }
        }
    }
}

/// The idx-th transaction at `level`.
pub fn tx_at(level: CorpusLevel, idx: u64) -> Transaction {
    tx_point(level, idx).build()
}

/// Materialised corpus. Only for levels small enough to hold in memory (Star).
pub fn tx_corpus(level: CorpusLevel) -> Vec<Transaction> {
    let n = tx_count(level);
    assert!(
        n <= 2_000_000,
        "tx_corpus({level:?}) has {n} elements; use tx_count/tx_at instead of materialising it"
    );
    (0..n).map(|i| tx_at(level, i)).collect()
}

// ------------------------------------------------------------------ independent sizes
//
// Encoded lengths written down from the specification's tx-format tables (field widths:
// every integer is one 8-byte word, ids are 32 bytes, byte vectors are a length word in
// the fixed part plus the bytes padded to a word). They do not call any `size*` method
// of the subject.

pub const fn pad8(n: usize) -> usize {
    (n + 7) / 8 * 8
}

pub fn spec_len_policies(p: &Policies) -> usize {
    8 + 8 * p.bits().count_ones() as usize
}

pub fn spec_len_input(i: &Input) -> usize {
    // InputCoin:    type, txID, outputIndex, owner, amount, assetID, txPointer(2 words),
    //               witnessIndex, predicateGasUsed, predicateLength, predicateDataLength
    const COIN: usize = 8 + 32 + 8 + 32 + 8 + 32 + 16 + 8 + 8 + 8 + 8;
    // InputContract: type, txID, outputIndex, balanceRoot, stateRoot, txPointer, contractID
    const CONTRACT: usize = 8 + 32 + 8 + 32 + 32 + 16 + 32;
    // InputMessage: type, sender, recipient, amount, nonce, witnessIndex,
    //               predicateGasUsed, dataLength, predicateLength, predicateDataLength
    const MESSAGE: usize = 8 + 32 + 32 + 8 + 32 + 8 + 8 + 8 + 8 + 8;
    let pred = i.input_predicate().map(|p| p.len()).unwrap_or(0);
    let pdata = i.input_predicate_data().map(|p| p.len()).unwrap_or(0);
    let data = i.input_data().map(|p| p.len()).unwrap_or(0);
    match i {
        Input::CoinSigned(_) | Input::CoinPredicate(_) => COIN + pad8(pred) + pad8(pdata),
        Input::Contract(_) => CONTRACT,
        _ => MESSAGE + pad8(data) + pad8(pred) + pad8(pdata),
    }
}

pub fn spec_len_output(o: &Output) -> usize {
    match o {
        Output::Coin { .. } | Output::Change { .. } | Output::Variable { .. } => 8 + 32 + 8 + 32,
        Output::Contract(_) => 8 + 8 + 32 + 32,
        Output::ContractCreated { .. } => 8 + 32 + 32,
    }
}

pub fn spec_len_witness(w: &Witness) -> usize {
    8 + pad8(w.as_vec().len())
}

pub const SPEC_LEN_STORAGE_SLOT: usize = 64;
pub const SPEC_LEN_UTXO_ID: usize = 32 + 8;
pub const SPEC_LEN_TX_POINTER: usize = 8 + 8;
pub const SPEC_LEN_MINT: usize =
    8 + 16 + (32 + 8 + 32 + 32 + 16 + 32) + (8 + 32 + 32) + 8 + 32 + 8;

pub fn spec_len_upgrade_purpose(p: &UpgradePurpose) -> usize {
    match p {
        UpgradePurpose::ConsensusParameters { .. } => 8 + 8 + 32,
        UpgradePurpose::StateTransition { .. } => 8 + 32,
    }
}

pub fn spec_len_receipt(r: &Receipt) -> usize {
    let (ids, words) = match r {
        Receipt::Call { .. } => (3, 6),
        Receipt::Return { .. } => (1, 3),
        Receipt::ReturnData { .. } => (2, 4),
        Receipt::Panic { .. } => (1, 3),
        Receipt::Revert { .. } => (1, 3),
        Receipt::Log { .. } => (1, 6),
        Receipt::LogData { .. } => (2, 6),
        Receipt::Transfer { .. } => (3, 3),
        Receipt::TransferOut { .. } => (3, 3),
        // result is a nested enum: its own discriminant word, plus the failure code word
        // for GenericFailure (shape of the Rust type; the spec has a single result word)
        Receipt::ScriptResult { result, .. } => (
            0,
            2 + matches!(result, ScriptExecutionResult::GenericFailure(_)) as usize,
        ),
        Receipt::MessageOut { .. } => (4, 2),
        Receipt::Mint { .. } | Receipt::Burn { .. } => (2, 3),
    };
    8 + 32 * ids + 8 * words
}

/// Independent encoded length of a transaction.
pub fn spec_len_tx(tx: &Transaction) -> usize {
    use field::{
        Inputs,
        Outputs,
        ProofSet,
        Script as _,
        ScriptData,
        StorageSlots,
        UpgradePurpose as _,
        Witnesses,
    };
    fn common<T: Inputs + Outputs + Witnesses + field::Policies>(t: &T) -> usize {
        // policyTypes word + three count words + the dynamic parts
        8 + 24
            + 8 * t.policies().bits().count_ones() as usize
            + t.inputs().iter().map(spec_len_input).sum::<usize>()
            + t.outputs().iter().map(spec_len_output).sum::<usize>()
            + t.witnesses().iter().map(spec_len_witness).sum::<usize>()
    }
    match tx {
        // type, scriptGasLimit, receiptsRoot, scriptLength, scriptDataLength
        Transaction::Script(t) => {
            8 + 8 + 32 + 8 + 8 + pad8(t.script().len()) + pad8(t.script_data().len()) + common(t)
        }
        // type, bytecodeWitnessIndex, salt, storageSlotsCount
        Transaction::Create(t) => 8 + 8 + 32 + 8 + 64 * t.storage_slots().len() + common(t),
        Transaction::Mint(_) => SPEC_LEN_MINT,
        Transaction::Upgrade(t) => 8 + spec_len_upgrade_purpose(t.upgrade_purpose()) + common(t),
        // type, root, witnessIndex, subsectionIndex, subsectionsNumber, proofSetCount
        Transaction::Upload(t) => 8 + 32 + 8 + 8 + 8 + 8 + 32 * t.proof_set().len() + common(t),
        // type, id, witnessIndex
        Transaction::Blob(t) => 8 + 32 + 8 + common(t),
    }
}
