#!/bin/bash
# MANIFEST.setup_cmd: offline build of the whole harness from files on disk.
set -eu
ROOT="$(cd "$(dirname "${BASH_SOURCE[0]}")" && pwd)"
export CARGO_NET_OFFLINE=true
export CARGO_TARGET_DIR="${CARGO_TARGET_DIR:-$ROOT/target}"
cd "$ROOT/harness"
cargo build --profile verif --offline --bins 2>&1 | tail -5
