#!/bin/bash
# MANIFEST.setup_cmd: offline build of the whole harness from files on disk.
# Builds all check binaries at once; if that fails (one broken check must not take
# the others down) falls back to building them one by one. Each ./check rebuilds its
# own binary anyway, so a failure here only costs time.
set -u
ROOT="$(cd "$(dirname "${BASH_SOURCE[0]}")" && pwd)"
export CARGO_NET_OFFLINE=true
export CARGO_TARGET_DIR="${CARGO_TARGET_DIR:-$ROOT/target}"
cd "$ROOT/harness" || exit 2
if cargo build --profile verif --offline --bins 2>&1 | tail -3; [ "${PIPESTATUS[0]}" -eq 0 ]; then
  echo "setup: all check binaries built"; exit 0
fi
echo "setup: bulk build failed, building binaries one by one"
rc=0
for f in checks/src/bin/*.rs; do
  b="$(basename "$f" .rs)"
  if ! cargo build --profile verif --offline --bin "$b" >/dev/null 2>&1; then
    echo "setup: WARNING binary $b does not build"; rc=1
  fi
done
# vcore must build, otherwise nothing can run
cargo build --profile verif --offline -p vcore >/dev/null 2>&1 || exit 2
exit 0
